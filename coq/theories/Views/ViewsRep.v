(** C10, ignore_order=True with report_repetition=True, WITHOUT the guard
    [norep] of ViewsIOChains.v: what is true of every level of every run, for
    every pairing oracle, hasher, skip/excl, cfg.

    With repeated items _diff_iterable_with_deephash reports a hash once per
    index of t1 but always with the FIRST item carrying that hash, and the
    t2-side child relationship gets t1's index unless the added hash occurs
    exactly once in t2 (child_relationship_param2); a repetition_change level
    sits at t1's first index on both sides.  So the key sequences of a level
    ([ep1], [ep2]) need not lead to the level's objects (finding
    C10-repetition-t2-index).  What always holds:

      every level has TRUE key sequences q1, q2 - of the same length as the
      reported ones, with the same dict keys, differing from them at list
      indexes only ([ksim]); on the t1 side every differing index names an item
      of the same list with the same hash ([hsim]) - such that every node above
      the leaf exists in both inputs and the leaf objects are the sub-objects
      named by q1 / q2                                     ([dio_rep_backed]);

      the [repetition] record of a repetition_change level lists exactly the
      positions of the items with the level's hash in the two lists, both
      non-empty and of different length, and the level's objects are the first
      such items                                           ([RepOK]);

      if equal hashes of sibling items mean equal items ([sibinj], true of a
      collision-free hasher) the reported t1-side key sequence resolves, node
      by node, to the same objects as q1                   ([hsim_resolve]);

      under [aligned] (no list of t2 holds a hash twice, a hash common to two
      compared lists occurs once in t1's list) q2 IS the reported t2-side key
      sequence.  [norep] implies [aligned] and [sibinj]. *)
From Coq Require Import List ZArith NArith Bool Arith Lia.
Import ListNotations.
From DD Require Import Base.PyStr Base.Value Base.ValueFacts Path.PathModel
  Diff.Tree Diff.DiffModel Diff.DiffFacts Diff.DiffFaithful Hash.HashModel Hash.HashProofsBase
  DiffIO.DiffIOModel DiffIO.DiffIOProofs Diff.TextView Views.ViewsModel Views.ViewsChains Views.ViewsProofs
  Views.ViewsIOChains.


(* ---- structural equality of values is equality (local copy: keeps this block
   independent of the Delta block) ---- *)
Fixpoint vlist_eqb (xs ys : list value) : bool :=
  match xs, ys with
  | [], [] => true
  | x :: xs', y :: ys' => value_eqb x y && vlist_eqb xs' ys'
  | _, _ => false
  end.
Fixpoint alist_eqb (xs ys : list atom) : bool :=
  match xs, ys with
  | [], [] => true
  | x :: xs', y :: ys' => atom_eqb x y && alist_eqb xs' ys'
  | _, _ => false
  end.
Fixpoint dlist_eqb (xs ys : list (atom * value)) : bool :=
  match xs, ys with
  | [], [] => true
  | (k, v) :: xs', (k', v') :: ys' => atom_eqb k k' && value_eqb v v' && dlist_eqb xs' ys'
  | _, _ => false
  end.
Lemma value_eqb_list xs ys : value_eqb (VList xs) (VList ys) = vlist_eqb xs ys.
Proof. reflexivity. Qed.
Lemma value_eqb_tuple xs ys : value_eqb (VTuple xs) (VTuple ys) = vlist_eqb xs ys.
Proof. reflexivity. Qed.
Lemma value_eqb_dict xs ys : value_eqb (VDict xs) (VDict ys) = dlist_eqb xs ys.
Proof. reflexivity. Qed.
Lemma value_eqb_set xs ys : value_eqb (VSet xs) (VSet ys) = alist_eqb xs ys.
Proof. reflexivity. Qed.
Lemma value_eqb_frozen xs ys : value_eqb (VFrozen xs) (VFrozen ys) = alist_eqb xs ys.
Proof. reflexivity. Qed.
Lemma alist_eqb_eq xs : forall ys, alist_eqb xs ys = true -> xs = ys.
Proof.
  induction xs as [|x xs IH]; intros [|y ys] H; cbn in H; try discriminate; [reflexivity|].
  apply andb_true_iff in H as [H1 H2]. apply atom_eqb_eq in H1. rewrite H1, (IH ys H2). reflexivity.
Qed.
Lemma value_eqb_eq : forall a b, value_eqb a b = true -> a = b.
Proof.
  induction a as [x|xs IH|xs IH|kvs IH|xs|xs] using value_ind'; intros b H; destruct b; try discriminate H.
  - cbn in H. apply atom_eqb_eq in H. congruence.
  - rewrite value_eqb_list in H. f_equal. revert xs0 H. induction IH as [|x xs Hx _ IHl]; intros [|y ys] H; cbn in H; try discriminate; [reflexivity|].
    apply andb_true_iff in H as [H1 H2]. rewrite (Hx y H1), (IHl ys H2). reflexivity.
  - rewrite value_eqb_tuple in H. f_equal. revert xs0 H. induction IH as [|x xs Hx _ IHl]; intros [|y ys] H; cbn in H; try discriminate; [reflexivity|].
    apply andb_true_iff in H as [H1 H2]. rewrite (Hx y H1), (IHl ys H2). reflexivity.
  - rewrite value_eqb_dict in H. f_equal. revert kvs0 H. induction IH as [|[k v] xs Hx _ IHl]; intros [|[k' v'] ys] H; cbn in H; try discriminate; [reflexivity|].
    apply andb_true_iff in H as [H H3]. apply andb_true_iff in H as [H1 H2]. apply atom_eqb_eq in H1.
    cbn in Hx. rewrite H1, (Hx v' H2), (IHl ys H3). reflexivity.
  - rewrite value_eqb_set in H. f_equal. apply alist_eqb_eq. exact H.
  - rewrite value_eqb_frozen in H. f_equal. apply alist_eqb_eq. exact H.
Qed.

(* the level with its key sequences replaced *)
Definition repath (e : entry) (q1 q2 : path) : entry :=
  mkEntry (ekind e) q1 q2 (et1 e) (et2 e) (ediff e).

(* same length, same dict keys, list indexes free *)
Inductive ksim : path -> path -> Prop :=
| ks_nil : ksim [] []
| ks_key q p k : ksim q p -> ksim (snoc q (PKey k)) (snoc p (PKey k))
| ks_idx q p i i' : ksim q p -> ksim (snoc q (PIdx i)) (snoc p (PIdx i')).

Lemma ksim_length q p : ksim q p -> length q = length p.
Proof. induction 1; unfold snoc; rewrite ?app_length; cbn; lia. Qed.

Lemma ksim_refl p : ksim p p.
Proof.
  induction p as [|k p IH] using rev_ind; [constructor|].
  destruct k; [apply (ks_key p p a IH)|apply (ks_idx p p i i IH)].
Qed.


Section Rep.
Variable H : pystr -> pystr.
Variable c : cfg.
Notation hvv := (hv H c true).

(* [hsim r q p]: p is q except that a list index of p may name another item of
   the same list with the same hash *)
Inductive hsim (r : value) : path -> path -> Prop :=
| hs_nil : hsim r [] []
| hs_same q p k : hsim r q p -> hsim r (snoc q k) (snoc p k)
| hs_sib q p v xs i i' x x' :
    hsim r q p -> resolve r q = Some v -> seq_items v = Some xs ->
    nth_error xs i = Some x -> nth_error xs i' = Some x' -> hvv x = hvv x' ->
    hsim r (snoc q (PIdx i)) (snoc p (PIdx i')).

Lemma hsim_ksim r q p : hsim r q p -> ksim q p.
Proof.
  induction 1; [constructor| |apply ks_idx; assumption].
  destruct k; [apply ks_key|apply ks_idx]; assumption.
Qed.
Lemma hsim_length r q p : hsim r q p -> length q = length p.
Proof. intros Hs. apply ksim_length. eapply hsim_ksim; exact Hs. Qed.
Lemma hsim_refl r p : hsim r p p.
Proof. induction p as [|k p IH] using rev_ind; [constructor|]. apply (hs_same r p p k IH). Qed.

Lemma firstn_snoc_all {A} (l : list A) x n : length l < n -> firstn n (l ++ [x]) = l ++ [x].
Proof. intros Hn. apply firstn_all2. rewrite app_length. cbn. lia. Qed.

Lemma hsim_firstn r q p n : hsim r q p -> hsim r (firstn n q) (firstn n p).
Proof.
  induction 1 as [|q p k Hs IH|q p v xs i i' x x' Hs IH Hr Hi Hx Hx' Hh].
  - rewrite firstn_nil. constructor.
  - pose proof (hsim_length _ _ _ Hs) as L. unfold snoc.
    destruct (Nat.le_gt_cases n (length q)) as [Hle|Hgt].
    + rewrite !firstn_snoc_le by lia. exact IH.
    + rewrite !firstn_snoc_all by lia. apply (hs_same r q p k Hs).
  - pose proof (hsim_length _ _ _ Hs) as L. unfold snoc.
    destruct (Nat.le_gt_cases n (length q)) as [Hle|Hgt].
    + rewrite !firstn_snoc_le by lia. exact IH.
    + rewrite !firstn_snoc_all by lia. eapply hs_sib; eassumption.
Qed.

(* ---- equal hashes of siblings mean equal siblings ---- *)
Fixpoint sibinj (v : value) : bool :=
  match v with
  | VList xs | VTuple xs =>
      forallb (fun x => forallb (fun y => implb (pystr_eqb (hvv x) (hvv y)) (value_eqb x y)) xs) xs
      && forallb sibinj xs
  | VDict kvs => forallb (fun kv => sibinj (snd kv)) kvs
  | _ => true
  end.

Lemma sibinj_items v xs : sibinj v = true -> seq_items v = Some xs ->
  (forall x y, In x xs -> In y xs -> hvv x = hvv y -> x = y) /\ forallb sibinj xs = true.
Proof.
  intros S E. destruct v; cbn in E; try discriminate; inversion E; subst; cbn in S;
    apply andb_true_iff in S as [S1 S2]; (split; [|exact S2]);
    intros x y Hx Hy Hh;
    rewrite forallb_forall in S1; specialize (S1 x Hx); rewrite forallb_forall in S1; specialize (S1 y Hy);
    rewrite Hh, pystr_eqb_refl in S1; cbn in S1; apply value_eqb_eq; exact S1.
Qed.

Lemma sibinj_get_item v a w : sibinj v = true -> get_item v a = Some w -> sibinj w = true.
Proof.
  intros S G. destruct v as [x|xs|xs|kvs|xs|xs]; cbn in G.
  - destruct x; try discriminate;
      destruct (int_of_atom a); try discriminate;
      match type of G with option_map _ ?o = _ => destruct o; cbn in G; [|discriminate] end;
      inversion G; reflexivity.
  - destruct (int_of_atom a) as [z|]; [|discriminate].
    cbn in S. apply andb_true_iff in S as [_ S]. rewrite forallb_forall in S. apply S.
    unfold seq_index in G. repeat match type of G with (if ?b then _ else _) = _ => destruct b end;
      try discriminate; eapply nth_error_In; exact G.
  - destruct (int_of_atom a) as [z|]; [|discriminate].
    cbn in S. apply andb_true_iff in S as [_ S]. rewrite forallb_forall in S. apply S.
    unfold seq_index in G. repeat match type of G with (if ?b then _ else _) = _ => destruct b end;
      try discriminate; eapply nth_error_In; exact G.
  - cbn in S. apply assoc_In in G as (k' & Hin & _). rewrite forallb_forall in S. exact (S _ Hin).
  - discriminate.
  - discriminate.
Qed.

Lemma sibinj_resolve r q v : sibinj r = true -> resolve r q = Some v -> sibinj v = true.
Proof.
  revert r; induction q as [|k q IH]; intros r S R; cbn in R; [inversion R; subst; exact S|].
  destruct (get_item r (key_atom k)) as [w|] eqn:G; [|discriminate].
  eapply IH; [eapply sibinj_get_item; eassumption|exact R].
Qed.

(* under [sibinj] the reported key sequence resolves as the true one does *)
Lemma hsim_resolve r q p : sibinj r = true -> hsim r q p -> resolve r p = resolve r q.
Proof.
  intros S. induction 1 as [|q p k Hs IH|q p v xs i i' x x' Hs IH Hr Hi Hx Hx' Hh].
  - reflexivity.
  - unfold snoc. rewrite !resolve_snoc, IH. reflexivity.
  - rewrite (resolve_seq_item _ _ _ _ _ _ Hr Hi Hx).
    assert (Hr' : resolve r p = Some v) by (rewrite IH; exact Hr).
    rewrite (resolve_seq_item _ _ _ _ _ _ Hr' Hi Hx'). f_equal.
    pose proof (sibinj_resolve _ _ _ S Hr) as Sv.
    destruct (sibinj_items _ _ Sv Hi) as [Inj _]. symmetry.
    apply Inj; [eapply nth_error_In; exact Hx|eapply nth_error_In; exact Hx'|exact Hh].
Qed.

Lemma hsim_resolve_firstn r q p n : sibinj r = true -> hsim r q p ->
  resolve r (firstn n p) = resolve r (firstn n q).
Proof. intros S Hs. apply hsim_resolve; [exact S|apply hsim_firstn; exact Hs]. Qed.

(* ---- the t2-side guard ---- *)
Fixpoint aligned (t1 t2 : value) {struct t1} : bool :=
  match t1, t2 with
  | VList xs, VList ys | VTuple xs, VTuple ys =>
      nodup_h (map hvv ys) &&
      forallb (fun x => negb (mem_h (hvv x) (map hvv ys)) ||
                        Nat.leb (length (indexes_of (hvv x) (map hvv xs) 0)) 1) xs &&
      forallb (fun x => forallb (aligned x) ys) xs
  | VDict kvs1, VDict kvs2 =>
      forallb (fun kv1 => forallb (fun kv2 => implb (py_eq (fst kv1) (fst kv2)) (aligned (snd kv1) (snd kv2))) kvs2) kvs1
  | _, _ => true
  end.

Lemma aligned_seq xs ys :
  nodup_h (map hvv ys) &&
  forallb (fun x => negb (mem_h (hvv x) (map hvv ys)) ||
                    Nat.leb (length (indexes_of (hvv x) (map hvv xs) 0)) 1) xs &&
  forallb (fun x => forallb (aligned x) ys) xs = true ->
  NoDup (map hvv ys) /\
  (forall h, In h (map hvv xs) -> In h (map hvv ys) -> length (indexes_of h (map hvv xs) 0) <= 1) /\
  (forall x y, In x xs -> In y ys -> aligned x y = true).
Proof.
  intros A. apply andb_true_iff in A as [A A3]. apply andb_true_iff in A as [A1 A2].
  split; [apply nodup_h_NoDup; exact A1|]. split.
  - intros h H1 H2. apply in_map_iff in H1 as (x & <- & Hx).
    rewrite forallb_forall in A2. specialize (A2 x Hx). apply orb_true_iff in A2 as [A2|A2].
    + apply negb_true_iff, mem_h_false in A2. contradiction.
    + apply Nat.leb_le. exact A2.
  - intros x y Hx Hy. rewrite forallb_forall in A3. specialize (A3 x Hx).
    rewrite forallb_forall in A3. exact (A3 y Hy).
Qed.

Variable udiff : pystr -> pystr -> pystr.
Variable skip excl : path -> bool.
Variable pairs : path -> list (nat * nat).
Variables r1 r2 : value.

Notation dio := (diff_io H udiff skip excl c true pairs).

(* ---- the invariant ---- *)
Definition KX (X : Prop) (e : entry) : Prop :=
  exists q1 q2, hsim r1 q1 (ep1 e) /\ ksim q2 (ep2 e) /\ iok r1 r2 (repath e q1 q2) /\ (X -> q2 = ep2 e).

Definition rep_rec_ok (e : entry) (r : repinfo) : Prop :=
  rpath r = ep1 e /\
  exists p1 p2 q1 q2 v1 v2 xs ys h,
    ep1 e = snoc p1 (PIdx (first_of (rold r))) /\ ep2 e = snoc p2 (PIdx (first_of (rold r))) /\
    hsim r1 q1 p1 /\ ksim q2 p2 /\
    resolve r1 q1 = Some v1 /\ seq_items v1 = Some xs /\
    resolve r2 q2 = Some v2 /\ seq_items v2 = Some ys /\
    rold r = indexes_of h (map hvv xs) 0 /\ rnew r = indexes_of h (map hvv ys) 0 /\
    rold r <> [] /\ rnew r <> [] /\ length (rold r) <> length (rnew r) /\
    et1 e = nth_error xs (first_of (rold r)) /\ et2 e = nth_error ys (first_of (rnew r)).

Definition RepOK (rs : res) : Prop := Forall2 rep_rec_ok (filter is_rep (fst rs)) (snd rs).
Definition Inv (X : Prop) (rs : res) : Prop := Forall (KX X) (fst rs) /\ RepOK rs.

Lemma KX_mono (X X' : Prop) e : (X' -> X) -> KX X e -> KX X' e.
Proof. intros HX (q1 & q2 & A & B & C & D). exists q1, q2. split; [exact A|]. split; [exact B|]. split; [exact C|]. intros x. apply D, HX, x. Qed.

Lemma Inv_nil (X : Prop) : Inv X ([], []).
Proof. split; [constructor|constructor]. Qed.

Lemma Inv_app2 (X : Prop) a b : Inv X a -> Inv X b -> Inv X (app2 a b).
Proof.
  intros [A1 A2] [B1 B2]. split.
  - rewrite fst_app2'. apply Forall_app; split; assumption.
  - unfold RepOK, app2. cbn [fst snd]. rewrite filter_app. apply Forall2_app; assumption.
Qed.

Lemma Inv_concat (X : Prop) l : (forall r, In r l -> Inv X r) -> Inv X (concat_res l).
Proof.
  induction l as [|r l IH]; intros Hl; cbn; [apply Inv_nil|].
  apply Inv_app2; [apply Hl; left; reflexivity|apply IH; intros r' Hr'; apply Hl; right; exact Hr'].
Qed.

(* results without repetition_change levels and records *)
Lemma Inv_plain (X : Prop) es : Forall (KX X) es -> Forall (fun e => is_rep e = false) es -> Inv X (es, []).
Proof.
  intros HK HP. split; [exact HK|]. unfold RepOK. cbn [fst snd].
  rewrite (filter_nil is_rep es); [constructor|]. apply Forall_forall. exact HP.
Qed.

Lemma plain_report k p1 p2 a b d : k <> KRepetition -> Forall (fun e => is_rep e = false) (report skip k p1 p2 a b d).
Proof.
  intros Hk. unfold report. destruct (skip p1); constructor; [|constructor].
  unfold is_rep. cbn. destruct k; try reflexivity. congruence.
Qed.

Lemma plain_diff_atom a b p1 p2 : Forall (fun e => is_rep e = false) (diff_atom udiff skip a b p1 p2).
Proof.
  unfold diff_atom. destruct (skip p1); [constructor|].
  destruct (negb _); [apply plain_report; discriminate|].
  destruct a, b; try (destruct (py_eq _ _); [constructor|apply plain_report; discriminate]).
  - destruct (diff_str udiff false s s0) as [ch d]. destruct ch; [apply plain_report; discriminate|constructor].
  - destruct (diff_str udiff true s s0) as [ch d]. destruct ch; [apply plain_report; discriminate|constructor].
Qed.

Lemma plain_diff_set (hatom : atom -> pystr) xs ys p1 p2 :
  Forall (fun e => is_rep e = false) (diff_set hatom skip xs ys p1 p2).
Proof.
  unfold diff_set. apply Forall_app; split; apply Forall_forall; intros e He;
    apply in_flat_map in He as (y & _ & He); destruct (existsb _ _); try destruct He;
    unfold report_set in He; destruct (skip p1); try destruct He; try contradiction; subst e; reflexivity.
Qed.

(* ---- single reports ---- *)
Lemma KX_both (X : Prop) k p1 p2 q1 q2 a b d :
  is_set_kind k = false -> has1 k = true -> has2 k = true ->
  length q1 = length q2 -> resolve r1 q1 = Some a -> resolve r2 q2 = Some b ->
  hsim r1 q1 p1 -> ksim q2 p2 -> (X -> q2 = p2) ->
  Forall (KX X) (report skip k p1 p2 (Some a) (Some b) d).
Proof.
  intros S H1 H2 L R1 R2 Hs Ks HX. unfold report. destruct (skip p1); constructor; [|constructor].
  exists q1, q2. cbn [ep1 ep2 repath ekind et1 et2 ediff].
  split; [exact Hs|]. split; [exact Ks|]. split; [|exact HX]. split.
  - exists q1, q2. repeat split; try assumption; try (eexists; eassumption). left. split; reflexivity.
  - unfold leaf_ok, side_ok. cbn. rewrite S, H1, H2. repeat split; try assumption; discriminate.
Qed.

Lemma KX_add (X : Prop) k p1 p2 q1 q2 k1 k1' k2 k2' b :
  is_set_kind k = false -> has1 k = false -> has2 k = true ->
  length q1 = length q2 -> resolves r1 q1 -> resolves r2 q2 ->
  resolve r2 (snoc q2 k2) = Some b ->
  hsim r1 (snoc q1 k1) (snoc p1 k1') -> ksim (snoc q2 k2) (snoc p2 k2') -> (X -> snoc q2 k2 = snoc p2 k2') ->
  Forall (KX X) (report skip k (snoc p1 k1') (snoc p2 k2') None (Some b) None).
Proof.
  intros S H1 H2 L R1 R2 Rb Hs Ks HX. unfold report. destruct (skip _); constructor; [|constructor].
  exists (snoc q1 k1), (snoc q2 k2). cbn [ep1 ep2 repath ekind et1 et2 ediff].
  split; [exact Hs|]. split; [exact Ks|]. split; [|exact HX]. split.
  - exists q1, q2. repeat split; try assumption. right. exists k1, k2. repeat split. exact S.
  - unfold leaf_ok, side_ok. cbn. rewrite S, H1, H2. repeat split; try assumption; discriminate.
Qed.

Lemma KX_rem (X : Prop) k p1 p2 q1 q2 k1 k1' k2 k2' a :
  is_set_kind k = false -> has1 k = true -> has2 k = false ->
  length q1 = length q2 -> resolves r1 q1 -> resolves r2 q2 ->
  resolve r1 (snoc q1 k1) = Some a ->
  hsim r1 (snoc q1 k1) (snoc p1 k1') -> ksim (snoc q2 k2) (snoc p2 k2') -> (X -> snoc q2 k2 = snoc p2 k2') ->
  Forall (KX X) (report skip k (snoc p1 k1') (snoc p2 k2') (Some a) None None).
Proof.
  intros S H1 H2 L R1 R2 Ra Hs Ks HX. unfold report. destruct (skip _); constructor; [|constructor].
  exists (snoc q1 k1), (snoc q2 k2). cbn [ep1 ep2 repath ekind et1 et2 ediff].
  split; [exact Hs|]. split; [exact Ks|]. split; [|exact HX]. split.
  - exists q1, q2. repeat split; try assumption. right. exists k1, k2. repeat split. exact S.
  - unfold leaf_ok, side_ok. cbn. rewrite S, H1, H2. repeat split; try assumption; discriminate.
Qed.

Lemma KX_diff_atom (X : Prop) a b p1 p2 q1 q2 :
  length q1 = length q2 -> resolve r1 q1 = Some (VAtom a) -> resolve r2 q2 = Some (VAtom b) ->
  hsim r1 q1 p1 -> ksim q2 p2 -> (X -> q2 = p2) ->
  Forall (KX X) (diff_atom udiff skip a b p1 p2).
Proof.
  intros L R1 R2 Hs Ks HX. unfold diff_atom. destruct (skip p1); [constructor|].
  destruct (negb _); [apply (KX_both X _ p1 p2 q1 q2 _ _ _); try reflexivity; assumption|].
  destruct a, b; try (destruct (py_eq _ _); [constructor|apply (KX_both X _ p1 p2 q1 q2 _ _ _); try reflexivity; assumption]).
  - destruct (diff_str udiff false s s0) as [ch d]. destruct ch; [apply (KX_both X _ p1 p2 q1 q2 _ _ _); try reflexivity; assumption|constructor].
  - destruct (diff_str udiff true s s0) as [ch d]. destruct ch; [apply (KX_both X _ p1 p2 q1 q2 _ _ _); try reflexivity; assumption|constructor].
Qed.

Lemma KX_diff_set (X : Prop) (hatom : atom -> pystr) v1 v2 xs ys p1 p2 q1 q2 :
  length q1 = length q2 -> resolve r1 q1 = Some v1 -> resolve r2 q2 = Some v2 ->
  (forall x, In x xs -> set_has v1 x) -> (forall y, In y ys -> set_has v2 y) ->
  hsim r1 q1 p1 -> ksim q2 p2 -> (X -> q2 = p2) ->
  Forall (KX X) (diff_set hatom skip xs ys p1 p2).
Proof.
  intros L R1 R2 M1 M2 Hs Ks HX. unfold diff_set. apply Forall_app; split.
  - apply Forall_forall. intros e He. apply in_flat_map in He as (y & Hy & He).
    destruct (existsb _ _); [destruct He|].
    unfold report_set in He. destruct (skip p1); [destruct He|]. destruct He as [<-|[]].
    exists q1, q2. cbn [ep1 ep2 repath ekind et1 et2 ediff].
    split; [exact Hs|]. split; [exact Ks|]. split; [|exact HX]. split.
    + exists q1, q2. repeat split; try assumption; try (eexists; eassumption). left. split; reflexivity.
    + unfold leaf_ok, side_ok. cbn. repeat split; try discriminate.
      exists v2, y. repeat split; [exact R2|]. apply M2. eapply fph_In; exact Hy.
  - apply Forall_forall. intros e He. apply in_flat_map in He as (x & Hx & He).
    destruct (existsb _ _); [destruct He|].
    unfold report_set in He. destruct (skip p1); [destruct He|]. destruct He as [<-|[]].
    exists q1, q2. cbn [ep1 ep2 repath ekind et1 et2 ediff].
    split; [exact Hs|]. split; [exact Ks|]. split; [|exact HX]. split.
    + exists q1, q2. repeat split; try assumption; try (eexists; eassumption). left. split; reflexivity.
    + unfold leaf_ok, side_ok. cbn. repeat split; try discriminate.
      exists v1, x. repeat split; [exact R1|]. apply M1. eapply fph_In; exact Hx.
Qed.

(* ---- one level of _diff_iterable_with_deephash, report_repetition=True ---- *)
Definition IHI (t1 : value) : Prop :=
  forall t2 p1 p2 q1 q2 (X : Prop),
    (X -> q2 = p2 /\ aligned t1 t2 = true) ->
    length q1 = length q2 -> wf t1 = true -> wf t2 = true ->
    resolve r1 q1 = Some t1 -> resolve r2 q2 = Some t2 ->
    hsim r1 q1 p1 -> ksim q2 p2 ->
    Inv X (dio t1 t2 p1 p2).

Section Level.
Variables (xs ys : list value) (p1 p2 q1 q2 : path) (v1 v2 : value) (X : Prop).
Hypothesis IHx : Forall IHI xs.
Hypothesis L : length q1 = length q2.
Hypothesis V1 : resolve r1 q1 = Some v1.
Hypothesis S1 : seq_items v1 = Some xs.
Hypothesis V2 : resolve r2 q2 = Some v2.
Hypothesis S2 : seq_items v2 = Some ys.
Hypothesis Hs : hsim r1 q1 p1.
Hypothesis Ks : ksim q2 p2.
Hypothesis W1 : forallb wf xs = true.
Hypothesis W2 : forallb wf ys = true.
Hypothesis GX : X -> q2 = p2 /\ NoDup (map hvv ys) /\
  (forall h, In h (map hvv xs) -> In h (map hvv ys) -> length (indexes_of h (map hvv xs) 0) <= 1) /\
  (forall x y, In x xs -> In y ys -> aligned x y = true).

Notation hh1 := (h1 H c true xs).
Notation hh2 := (h2 H c true ys).
Notation recs := (map dio xs).

Let R1 : resolves r1 q1. Proof. eexists; exact V1. Qed.
Let R2 : resolves r2 q2. Proof. eexists; exact V2. Qed.
Lemma X1 i x : nth_error xs i = Some x -> resolve r1 (snoc q1 (PIdx i)) = Some x.
Proof. intros Hx. eapply resolve_seq_item; eassumption. Qed.
Lemma X2 j y : nth_error ys j = Some y -> resolve r2 (snoc q2 (PIdx j)) = Some y.
Proof. intros Hy. eapply resolve_seq_item; eassumption. Qed.

Lemma snoc_len2 k1 k2 : length (snoc q1 k1) = length (snoc q2 k2).
Proof. unfold snoc. rewrite !app_length. cbn. lia. Qed.

Lemma item_h1 i r : nth_error hh1 i = Some r -> exists x, nth_error xs i = Some x /\ hvv x = r.
Proof. intros Hn. apply nth_error_map_inv in Hn as [x [Hx E]]. exists x. split; assumption. Qed.
Lemma item_h2 j a : nth_error hh2 j = Some a -> exists y, nth_error ys j = Some y /\ hvv y = a.
Proof. intros Hn. apply nth_error_map_inv in Hn as [y [Hy E]]. exists y. split; assumption. Qed.

Lemma idx_item1 r i : In i (indexes_of r hh1 0) -> exists x, nth_error xs i = Some x /\ hvv x = r.
Proof. intros Hi. apply indexes_nth in Hi as [_ Hi]. rewrite Nat.sub_0_r in Hi. apply item_h1. exact Hi. Qed.
Lemma idx_item2 a j : In j (indexes_of a hh2 0) -> exists y, nth_error ys j = Some y /\ hvv y = a.
Proof. intros Hj. apply indexes_nth in Hj as [_ Hj]. rewrite Nat.sub_0_r in Hj. apply item_h2. exact Hj. Qed.

Lemma first_item1 r : In r hh1 -> exists x, nth_error xs (first_of (indexes_of r hh1 0)) = Some x /\ hvv x = r.
Proof. intros Hr. apply item_h1. apply first_of_index. exact Hr. Qed.
Lemma first_item2 a : In a hh2 -> exists y, nth_error ys (first_of (indexes_of a hh2 0)) = Some y /\ hvv y = a.
Proof. intros Ha. apply item_h2. apply first_of_index. exact Ha. Qed.

(* the t1-side step: reported index i, true index = the first with that hash *)
Lemma hsim_step r i : In r hh1 -> In i (indexes_of r hh1 0) ->
  hsim r1 (snoc q1 (PIdx (first_of (indexes_of r hh1 0)))) (snoc p1 (PIdx i)).
Proof.
  intros Hr Hi. destruct (first_item1 r Hr) as (x0 & Hx0 & E0). destruct (idx_item1 r i Hi) as (x & Hx & E).
  eapply hs_sib; try eassumption. congruence.
Qed.

Lemma X_single a : X -> In a hh2 -> indexes_of a hh2 0 = [first_of (indexes_of a hh2 0)].
Proof. intros x Ha. destruct (GX x) as (_ & N & _). apply single_list; assumption. Qed.

Lemma partner_in_g' a rem r : partner H c true pairs xs ys p1 a rem = Some r -> In r hh1 /\ In r rem.
Proof. apply partner_in_g. Qed.

(* a paired recursion, reported below t1-index i *)
Lemma Inv_rec r a i j' :
  In r hh1 -> In a hh2 -> In i (indexes_of r hh1 0) ->
  (X -> j' = first_of (indexes_of a hh2 0)) ->
  forall y, nth_error ys (first_of (indexes_of a hh2 0)) = Some y ->
  Inv X (nth_rec recs (first_of (indexes_of r hh1 0)) y (snoc p1 (PIdx i)) (snoc p2 (PIdx j'))).
Proof.
  intros Hr Ha Hi Hj y Hy. destruct (first_item1 r Hr) as (x0 & Hx0 & E0).
  rewrite (nth_rec_map_g H udiff skip excl c true pairs _ _ _ Hx0).
  rewrite Forall_forall in IHx.
  apply (IHx x0 (nth_error_In _ _ Hx0) y (snoc p1 (PIdx i)) (snoc p2 (PIdx j'))
             (snoc q1 (PIdx (first_of (indexes_of r hh1 0)))) (snoc q2 (PIdx (first_of (indexes_of a hh2 0))))).
  - intros x. destruct (GX x) as (E & _ & _ & A). split.
    + rewrite E, (Hj x). reflexivity.
    + apply A; eapply nth_error_In; eassumption.
  - apply snoc_len2.
  - eapply forallb_forall in W1; [exact W1|eapply nth_error_In; exact Hx0].
  - eapply forallb_forall in W2; [exact W2|eapply nth_error_In; exact Hy].
  - apply X1; exact Hx0.
  - apply X2; exact Hy.
  - apply hsim_step; assumption.
  - apply ks_idx; exact Ks.
Qed.

Lemma Inv_fold (f : nat -> res) l : (forall i, In i l -> Inv X (f i)) ->
  Inv X (fold_right (fun i acc => app2 (f i) acc) ([], []) l).
Proof.
  induction l as [|i l IH]; intros Hl; cbn [fold_right]; [apply Inv_nil|].
  apply Inv_app2; [apply Hl; left; reflexivity|apply IH; intros j Hj; apply Hl; right; exact Hj].
Qed.

Lemma Inv_added_one_rep a rem : In a hh2 ->
  Inv X (fst (added_one_rep H skip c true pairs recs xs ys p1 p2 a rem)).
Proof.
  intros Ha. unfold added_one_rep. cbv zeta.
  destruct (first_item2 a Ha) as (y & Hy & Ey).
  destruct (partner H c true pairs xs ys p1 a rem) as [r|] eqn:P; cbn [fst].
  - apply partner_in_g in P as [P _]. unfold item2. rewrite Hy.
    apply (Inv_fold (fun i => nth_rec recs (first_of (indexes_of r hh1 0)) y (snoc p1 (PIdx i))
                      (snoc p2 (PIdx (if Nat.eqb (length (indexes_of a hh2 0)) 1 then first_of (indexes_of a hh2 0) else i))))).
    intros i Hi. apply (Inv_rec r a i _ P Ha Hi); [|exact Hy].
    intros x. assert (E1 : length (indexes_of a hh2 0) = 1) by (rewrite (X_single a x Ha); reflexivity).
    rewrite E1. reflexivity.
  - apply Inv_plain.
    + apply Forall_forall. intros e He. apply in_flat_map in He as (j & Hj & He).
      unfold item2, rpt in He. rewrite Hy in He.
      assert (P' : Forall (KX X) (report skip KIterAdd (snoc p1 (PIdx j)) (snoc p2 (PIdx j)) None (Some y) None)).
      { apply (KX_add X KIterAdd p1 p2 q1 q2 (PIdx j) (PIdx j) (PIdx (first_of (indexes_of a hh2 0))) (PIdx j) y);
          try reflexivity; try assumption.
        - apply X2; exact Hy.
        - apply hs_same; exact Hs.
        - apply ks_idx; exact Ks.
        - intros x. destruct (GX x) as (E & _). rewrite E.
          rewrite (X_single a x Ha) in Hj. destruct Hj as [<-|[]]. reflexivity. }
      eapply Forall_forall in P'; eassumption.
    + apply Forall_forall. intros e He. apply in_flat_map in He as (j & _ & He).
      pose proof (plain_report KIterAdd (snoc p1 (PIdx j)) (snoc p2 (PIdx j)) None (item2 ys (first_of (indexes_of a hh2 0))) None) as Q.
      eapply Forall_forall in Q; [exact Q|discriminate|exact He].
Qed.

Lemma Inv_removed_one_rep r : In r hh1 -> Inv X (removed_one_rep H skip c true xs p1 p2 r).
Proof.
  intros Hr. unfold removed_one_rep. cbv zeta.
  destruct (first_item1 r Hr) as (x0 & Hx0 & E0).
  apply Inv_plain.
  - apply Forall_forall. intros e He. apply in_flat_map in He as (i & Hi & He).
    unfold item1, rpt in He. rewrite Hx0 in He.
    assert (P' : Forall (KX X) (report skip KIterRem (snoc p1 (PIdx i)) (snoc p2 (PIdx i)) (Some x0) None None)).
    { apply (KX_rem X KIterRem p1 p2 q1 q2 (PIdx (first_of (indexes_of r hh1 0))) (PIdx i) (PIdx i) (PIdx i) x0);
        try reflexivity; try assumption.
      - apply X1; exact Hx0.
      - apply hsim_step; assumption.
      - apply ks_idx; exact Ks.
      - intros x. destruct (GX x) as (E & _). rewrite E. reflexivity. }
    eapply Forall_forall in P'; eassumption.
  - apply Forall_forall. intros e He. apply in_flat_map in He as (i & _ & He).
    pose proof (plain_report KIterRem (snoc p1 (PIdx i)) (snoc p2 (PIdx i)) (item1 xs (first_of (indexes_of r hh1 0))) None None) as Q.
    eapply Forall_forall in Q; [exact Q|discriminate|exact He].
Qed.

Lemma Inv_repetition_one h : In h hh1 -> In h hh2 -> Inv X (repetition_one H skip c true xs ys p1 p2 h).
Proof.
  intros I1 I2. unfold repetition_one. cbv zeta.
  destruct (Nat.eqb (length (indexes_of h hh1 0)) (length (indexes_of h hh2 0))) eqn:EQ; [apply Inv_nil|].
  apply Nat.eqb_neq in EQ.
  destruct (skip _) eqn:SK; [apply Inv_nil|].
  destruct (first_item1 h I1) as (x0 & Hx0 & E0). destruct (first_item2 h I2) as (y0 & Hy0 & F0).
  set (i0 := first_of (indexes_of h hh1 0)) in *. set (j0 := first_of (indexes_of h hh2 0)) in *.
  unfold item1, item2. rewrite Hx0, Hy0. split.
  - cbn [fst]. constructor; [|constructor].
    exists (snoc q1 (PIdx i0)), (snoc q2 (PIdx j0)). cbn [ep1 ep2 repath ekind et1 et2 ediff].
    split; [apply hs_same; exact Hs|]. split; [apply ks_idx; exact Ks|]. split; [split|].
    + exists (snoc q1 (PIdx i0)), (snoc q2 (PIdx j0)). split; [apply snoc_len2|].
      split; [eexists; apply X1; exact Hx0|]. split; [eexists; apply X2; exact Hy0|].
      left. split; reflexivity.
    + unfold leaf_ok, side_ok. cbn. split; [apply X1; exact Hx0|]. split; [apply X2; exact Hy0|].
      split; discriminate.
    + intros x. exfalso. destruct (GX x) as (_ & N & C1 & _).
      pose proof (indexes_single h hh2 N I2) as E2. specialize (C1 h I1 I2).
      pose proof (indexes_nonempty h hh1 0 I1) as NE.
      assert (NL : length (indexes_of h hh1 0) <> 0) by (intros Z; apply length_zero_iff_nil in Z; exact (NE Z)).
      unfold h1, h2 in *. lia.
  - unfold RepOK. cbn [fst snd filter is_rep ekind rkind_eqb]. constructor; [|constructor].
    split; [reflexivity|]. cbn [rpath rold rnew ep1 ep2 et1 et2].
    exists p1, p2, q1, q2, v1, v2, xs, ys, h. fold i0. fold j0.
    repeat split; try assumption; try reflexivity.
    + apply indexes_nonempty; exact I1.
    + apply indexes_nonempty; exact I2.
    + symmetry; exact Hx0.
    + symmetry; exact Hy0.
Qed.

Lemma Inv_added_loop one adds rem0 :
  (forall a rem, In a adds -> Inv X (fst (one a rem))) ->
  (forall a rem, incl (snd (one a rem)) rem) ->
  Inv X (fst (added_loop one adds rem0)) /\ incl (snd (added_loop one adds rem0)) rem0.
Proof.
  revert rem0; induction adds as [|a adds IH]; intros rem0 Hone Hinc; cbn [added_loop].
  - split; [apply Inv_nil|intros x Hx; exact Hx].
  - destruct (one a rem0) as [ra rem1] eqn:E1.
    destruct (added_loop one adds rem1) as [rb rem2] eqn:E2. cbn [fst snd].
    destruct (IH rem1 (fun a' rem' Ha' => Hone a' rem' (or_intror Ha')) Hinc) as [IH1 IH2].
    rewrite E2 in IH1, IH2. cbn [fst snd] in IH1, IH2.
    pose proof (Hone a rem0 (or_introl eq_refl)) as A1. pose proof (Hinc a rem0) as A2.
    rewrite E1 in A1, A2. cbn [fst snd] in A1, A2.
    split; [apply Inv_app2; assumption|].
    intros x Hx. apply A2, IH2, Hx.
Qed.

Lemma Inv_iter : Inv X (iter_deephash H skip c true pairs recs xs ys p1 p2).
Proof.
  unfold iter_deephash, iter_rep.
  destruct (Inv_added_loop (added_one_rep H skip c true pairs recs xs ys p1 p2)
              (hashes_added H c true xs ys) (hashes_removed H c true xs ys)) as [A1 A2].
  { intros a rem Ha. apply Inv_added_one_rep. eapply added_in; exact Ha. }
  { intros a rem. apply added_one_rep_incl. }
  destruct (added_loop _ _ _) as [ra remaining]. cbn [fst snd] in A1, A2.
  apply Inv_app2; [exact A1|]. apply Inv_app2.
  - apply Inv_concat. intros r Hr. apply in_map_iff in Hr as (h & <- & Hh).
    apply Inv_removed_one_rep. eapply removed_in, A2, Hh.
  - apply Inv_concat. intros r Hr. apply in_map_iff in Hr as (h & <- & Hh).
    apply filter_In in Hh as [Hh2 Hh1]. apply mem_h_In in Hh1.
    apply Inv_repetition_one.
    + apply (proj1 (dedup_In _ _)) in Hh1. exact Hh1.
    + apply (proj1 (dedup_In _ _)) in Hh2. exact Hh2.
Qed.

End Level.

(* ---- dictionaries ---- *)
Lemma aligned_dict kvs1 kvs2 k v1 k2 v2 :
  aligned (VDict kvs1) (VDict kvs2) = true -> In (k, v1) kvs1 -> In (k2, v2) kvs2 -> py_eq k k2 = true ->
  aligned v1 v2 = true.
Proof.
  cbn [aligned]. intros A I1 I2 E. rewrite forallb_forall in A. specialize (A _ I1).
  rewrite forallb_forall in A. specialize (A _ I2). cbn [fst snd] in A. rewrite E in A. exact A.
Qed.

Lemma Inv_common (X : Prop) kvs1 kvs2 p1 p2 q1 q2 : length q1 = length q2 ->
  (X -> q2 = p2 /\ aligned (VDict kvs1) (VDict kvs2) = true) ->
  nodup_atoms (map fst kvs1) = true ->
  forallb (fun kv => wf (snd kv)) kvs1 = true -> forallb (fun kv => wf (snd kv)) kvs2 = true ->
  resolve r1 q1 = Some (VDict kvs1) -> resolve r2 q2 = Some (VDict kvs2) ->
  hsim r1 q1 p1 -> ksim q2 p2 ->
  forall l, (forall kv, In kv l -> In kv kvs1) -> Forall (fun kv => IHI (snd kv)) l ->
  Inv X (io_common_g H udiff skip excl c true pairs kvs2 (keys_of c kvs2) p1 p2 l).
Proof.
  intros L GX N1 W1 W2 V1 V2 Hs Ks. induction l as [|[k v1] l IH]; intros Sub HI; cbn; [apply Inv_nil|].
  apply Forall_cons_iff in HI as [Hk HI'].
  assert (Rest : Inv X (io_common_g H udiff skip excl c true pairs kvs2 (keys_of c kvs2) p1 p2 l)).
  { apply IH; [intros kv Hkv; apply Sub; right; exact Hkv|exact HI']. }
  destruct (keep_key c k); [|exact Rest].
  destruct (find (py_eq k) (keys_of c kvs2)) as [k'|] eqn:Fk; [|exact Rest].
  destruct (assoc k' kvs2) as [v2|] eqn:A2; [|exact Rest].
  apply Inv_app2; [|exact Rest].
  apply find_some in Fk as [Hk' E].
  pose proof (assoc_In _ _ _ A2) as (k'' & Hin2 & E2).
  cbn in Hk. apply (Hk v2 (snoc p1 (PKey k')) (snoc p2 (PKey k')) (snoc q1 (PKey k')) (snoc q2 (PKey k'))).
  - intros x. destruct (GX x) as [Eq A]. split; [rewrite Eq; reflexivity|].
    eapply aligned_dict; [exact A|apply Sub; left; reflexivity|exact Hin2|].
    eapply py_eq_trans; [exact E|]. rewrite py_eq_sym. exact E2.
  - unfold snoc. rewrite !app_length. cbn. lia.
  - eapply forallb_forall in W1; [|apply Sub; left; reflexivity]. exact W1.
  - eapply forallb_forall in W2; [|exact Hin2]. exact W2.
  - unfold snoc. rewrite resolve_snoc, V1. rewrite get_item_key_dict.
    eapply assoc_nodup; [exact N1|apply Sub; left; reflexivity|exact E].
  - unfold snoc. rewrite resolve_snoc, V2. rewrite get_item_key_dict. exact A2.
  - apply hs_same; exact Hs.
  - apply ks_key; exact Ks.
Qed.

Lemma Inv_dict (X : Prop) kvs1 kvs2 p1 p2 q1 q2 : length q1 = length q2 ->
  (X -> q2 = p2 /\ aligned (VDict kvs1) (VDict kvs2) = true) ->
  Forall (fun kv => IHI (snd kv)) kvs1 ->
  wf (VDict kvs1) = true -> wf (VDict kvs2) = true ->
  resolve r1 q1 = Some (VDict kvs1) -> resolve r2 q2 = Some (VDict kvs2) ->
  hsim r1 q1 p1 -> ksim q2 p2 ->
  Inv X (io_dict_g H udiff skip excl c true pairs kvs1 kvs2 p1 p2).
Proof.
  intros L GX IH W1 W2 V1 V2 Hs Ks. cbn in W1, W2.
  apply andb_true_iff in W1 as [N1 W1], W2 as [N2 W2].
  assert (R1 : resolves r1 q1) by (eexists; exact V1).
  assert (R2 : resolves r2 q2) by (eexists; exact V2).
  assert (GE : X -> q2 = p2) by (intros x; apply (GX x)).
  unfold io_dict_g.
  destruct (dict_shortcut excl c (keys_of c kvs1) (keys_of c kvs2) p1).
  - apply Inv_plain; [|apply plain_report; discriminate].
    apply (KX_both X _ p1 p2 q1 q2 _ _ _); try reflexivity; assumption.
  - pose proof (Inv_common X kvs1 kvs2 p1 p2 q1 q2 L GX N1 W1 W2 V1 V2 Hs Ks kvs1 (fun kv Hkv => Hkv) IH) as [C1 C2].
    set (common := io_common_g H udiff skip excl c true pairs kvs2 (keys_of c kvs2) p1 p2 kvs1) in *.
    assert (PA : forall k, Forall (fun e => is_rep e = false)
                (if mem_atom k (keys_of c kvs1) then []
                 else report skip KDictAdd (snoc p1 (PKey k)) (snoc p2 (PKey k)) None (assoc k kvs2) None)).
    { intros k. destruct (mem_atom k _); [constructor|apply plain_report; discriminate]. }
    assert (PR : forall k, Forall (fun e => is_rep e = false)
                (if mem_atom k (keys_of c kvs2) then []
                 else report skip KDictRem (snoc p1 (PKey k)) (snoc p2 (PKey k)) (assoc k kvs1) None None)).
    { intros k. destruct (mem_atom k _); [constructor|apply plain_report; discriminate]. }
    split.
    + cbn [fst]. apply Forall_app; split; [|apply Forall_app; split; [|exact C1]].
      * apply Forall_forall. intros e He. apply in_flat_map in He as (k & Hk & He).
        destruct (mem_atom k _); [destruct He|].
        apply keys_of_In in Hk as [Hk _]. destruct (assoc_of_key k kvs2 Hk) as [b Hb]. rewrite Hb in He.
        assert (P : Forall (KX X) (report skip KDictAdd (snoc p1 (PKey k)) (snoc p2 (PKey k)) None (Some b) None)).
        { apply (KX_add X KDictAdd p1 p2 q1 q2 (PKey k) (PKey k) (PKey k) (PKey k) b); try reflexivity; try assumption.
          - unfold snoc. rewrite resolve_snoc, V2, get_item_key_dict. exact Hb.
          - apply hs_same; exact Hs.
          - apply ks_key; exact Ks.
          - intros x. rewrite (GE x). reflexivity. }
        eapply Forall_forall in P; eassumption.
      * apply Forall_forall. intros e He. apply in_flat_map in He as (k & Hk & He).
        destruct (mem_atom k _); [destruct He|].
        apply keys_of_In in Hk as [Hk _]. destruct (assoc_of_key k kvs1 Hk) as [a Ha]. rewrite Ha in He.
        assert (P : Forall (KX X) (report skip KDictRem (snoc p1 (PKey k)) (snoc p2 (PKey k)) (Some a) None None)).
        { apply (KX_rem X KDictRem p1 p2 q1 q2 (PKey k) (PKey k) (PKey k) (PKey k) a); try reflexivity; try assumption.
          - unfold snoc. rewrite resolve_snoc, V1, get_item_key_dict. exact Ha.
          - apply hs_same; exact Hs.
          - apply ks_key; exact Ks.
          - intros x. rewrite (GE x). reflexivity. }
        eapply Forall_forall in P; eassumption.
    + unfold RepOK in *. cbn [fst snd]. rewrite !filter_app.
      rewrite (filter_nil is_rep (flat_map _ (keys_of c kvs2))).
      2:{ intros e He. apply in_flat_map in He as (k & _ & He). specialize (PA k).
          eapply Forall_forall in PA; [exact PA|exact He]. }
      rewrite (filter_nil is_rep (flat_map _ (keys_of c kvs1))).
      2:{ intros e He. apply in_flat_map in He as (k & _ & He). specialize (PR k).
          eapply Forall_forall in PR; [exact PR|exact He]. }
      cbn [app]. exact C2.
Qed.

Theorem dio_rep_ok : forall t1, IHI t1.
Proof.
  induction t1 as [a|xs IH|xs IH|kvs IH|xs|xs] using value_ind'; intros t2 p1 p2 q1 q2 X GX L W1 W2 V1 V2 Hs Ks;
    assert (GE : X -> q2 = p2) by (intros x; apply (GX x));
    (destruct (skip p1) eqn:Hsk; [rewrite (dio_skip H udiff skip excl c true pairs) by exact Hsk; apply Inv_nil|]);
    (match goal with |- context [diff_io _ _ _ _ _ _ _ ?t1 t2 _ _] => destruct (ty_eqb (type_of t1) (type_of t2)) eqn:T end;
     [|rewrite (dio_type H udiff skip excl c true pairs) by assumption;
       apply Inv_plain; [apply (KX_both X _ p1 p2 q1 q2 _ _ _); try reflexivity; assumption|apply plain_report; discriminate]]);
    apply ty_eqb_true in T; destruct t2 as [b|ys|ys|kvs2|ys|ys]; try discriminate T; try (destruct a; discriminate T); try (destruct b; discriminate T).
  - rewrite (dio_atom H udiff skip excl c true pairs) by exact Hsk. destruct (negb _).
    + apply Inv_plain; [apply (KX_both X _ p1 p2 q1 q2 _ _ _); try reflexivity; assumption|apply plain_report; discriminate].
    + apply Inv_plain; [apply (KX_diff_atom X _ _ p1 p2 q1 q2); assumption|apply plain_diff_atom].
  - rewrite (dio_list_g H udiff skip excl c true pairs) by exact Hsk.
    eapply (Inv_iter xs ys p1 p2 q1 q2 (VList xs) (VList ys) X); try eassumption; try reflexivity.
    intros x. destruct (GX x) as [E A]. split; [exact E|]. apply aligned_seq. exact A.
  - rewrite (dio_tuple_g H udiff skip excl c true pairs) by exact Hsk.
    eapply (Inv_iter xs ys p1 p2 q1 q2 (VTuple xs) (VTuple ys) X); try eassumption; try reflexivity.
    intros x. destruct (GX x) as [E A]. split; [exact E|]. apply aligned_seq. exact A.
  - rewrite (dio_dict_g H udiff skip excl c true pairs) by exact Hsk. apply (Inv_dict X kvs kvs2 p1 p2 q1 q2); assumption.
  - rewrite (dio_set H udiff skip excl c true pairs) by exact Hsk.
    apply Inv_plain; [|apply plain_diff_set].
    eapply (KX_diff_set X _ _ _ _ _ p1 p2 q1 q2); try eassumption; intros z Hz; exact Hz.
  - rewrite (dio_frozen H udiff skip excl c true pairs) by exact Hsk.
    apply Inv_plain; [|apply plain_diff_set].
    eapply (KX_diff_set X _ _ _ _ _ p1 p2 q1 q2); try eassumption; intros z Hz; exact Hz.
Qed.

End Rep.

(* ================================================================== *)
(* corollaries for whole runs                                          *)
(* ================================================================== *)
Lemma repath_id e : repath e (ep1 e) (ep2 e) = e.
Proof. destruct e; reflexivity. Qed.

Lemma run_rep_eq H udiff skip excl c pairs t1 t2 :
  run_diff_io H udiff skip excl c true pairs t1 t2 = diff_io H udiff skip excl c true pairs t1 t2 [] [].
Proof. unfold run_diff_io. destruct (diff_io _ _ _ _ _ _ _ _ _ _ _); reflexivity. Qed.

Section RunRep.
Variable H : pystr -> pystr.
Variable udiff : pystr -> pystr -> pystr.
Variable skip excl : path -> bool.
Variable c : cfg.
Variable pairs : path -> list (nat * nat).

(* no guard: every level has true key sequences backed by the inputs *)
Theorem run_io_rep_backed t1 t2 :
  wf t1 = true -> wf t2 = true ->
  forall e, In e (fst (run_diff_io H udiff skip excl c true pairs t1 t2)) ->
    exists q1 q2, hsim H c t1 q1 (ep1 e) /\ ksim q2 (ep2 e) /\
      chain_ok t1 t2 (repath e q1 q2) /\ leaf_ok t1 t2 (repath e q1 q2).
Proof.
  intros W1 W2 e He. rewrite run_rep_eq in He.
  destruct (dio_rep_ok H c udiff skip excl pairs t1 t2 t1 t2 [] [] [] [] False
              (fun f : False => match f with end) eq_refl W1 W2 eq_refl eq_refl (hs_nil H c t1) ks_nil) as [HF _].
  eapply Forall_forall in HF; [|exact He]. destruct HF as (q1 & q2 & A & B & [C D] & _).
  exists q1, q2. split; [exact A|]. split; [exact B|]. split; [apply anchored_chain_ok; exact C|exact D].
Qed.

(* the repetition records, pairwise and in order with the repetition_change levels *)
Theorem run_io_rep_payload t1 t2 :
  wf t1 = true -> wf t2 = true ->
  Forall2 (rep_rec_ok H c t1 t2)
    (filter is_rep (fst (run_diff_io H udiff skip excl c true pairs t1 t2)))
    (snd (run_diff_io H udiff skip excl c true pairs t1 t2)).
Proof.
  intros W1 W2. rewrite run_rep_eq.
  destruct (dio_rep_ok H c udiff skip excl pairs t1 t2 t1 t2 [] [] [] [] False
              (fun f : False => match f with end) eq_refl W1 W2 eq_refl eq_refl (hs_nil H c t1) ks_nil) as [_ HR].
  exact HR.
Qed.

(* t1 side exact when equal hashes of siblings mean equal siblings *)
Lemma side_transfer r q p k o : sibinj H c r = true -> hsim H c r q p -> side_ok r q k o -> side_ok r p k o.
Proof.
  intros S Hs. unfold side_ok. destruct o as [a|]; [|trivial].
  rewrite (hsim_resolve H c r q p S Hs). trivial.
Qed.

Lemma backed_transfer r1 r2 e q1 q2 :
  sibinj H c r1 = true -> hsim H c r1 q1 (ep1 e) ->
  chain_ok r1 r2 (repath e q1 q2) -> leaf_ok r1 r2 (repath e q1 q2) ->
  chain_ok r1 r2 (repath e (ep1 e) q2) /\ leaf_ok r1 r2 (repath e (ep1 e) q2).
Proof.
  intros S Hs [CL CN] (L1 & L2 & L3 & L4). pose proof (hsim_length H c _ _ _ Hs) as LL.
  cbn [repath ep1 ep2 ekind et1 et2] in *. split.
  - split; [cbn [repath ep1 ep2]; lia|]. cbn [repath ep1 ep2 ekind]. intros n Hn.
    destruct (CN n) as [[v Hv] R2]; [rewrite LL; exact Hn|]. split; [|exact R2].
    exists v. rewrite (hsim_resolve_firstn H c r1 q1 (ep1 e) n S Hs). exact Hv.
  - unfold leaf_ok. cbn [repath ep1 ep2 ekind et1 et2]. repeat split; try assumption.
    eapply side_transfer; eassumption.
Qed.

Theorem run_io_rep_t1_exact t1 t2 :
  wf t1 = true -> wf t2 = true -> sibinj H c t1 = true ->
  forall e, In e (fst (run_diff_io H udiff skip excl c true pairs t1 t2)) ->
    exists q2, ksim q2 (ep2 e) /\
      chain_ok t1 t2 (repath e (ep1 e) q2) /\ leaf_ok t1 t2 (repath e (ep1 e) q2).
Proof.
  intros W1 W2 S e He. destruct (run_io_rep_backed t1 t2 W1 W2 e He) as (q1 & q2 & A & B & C & D).
  exists q2. split; [exact B|]. eapply backed_transfer; eassumption.
Qed.

(* both sides exact under [aligned] and [sibinj] *)
Theorem run_io_rep_exact t1 t2 :
  wf t1 = true -> wf t2 = true -> aligned H c t1 t2 = true -> sibinj H c t1 = true ->
  forall e, In e (fst (run_diff_io H udiff skip excl c true pairs t1 t2)) ->
    chain_ok t1 t2 e /\ leaf_ok t1 t2 e.
Proof.
  intros W1 W2 A S e He. rewrite run_rep_eq in He.
  destruct (dio_rep_ok H c udiff skip excl pairs t1 t2 t1 t2 [] [] [] [] True
              (fun _ => conj eq_refl A) eq_refl W1 W2 eq_refl eq_refl (hs_nil H c t1) ks_nil) as [HF _].
  eapply Forall_forall in HF; [|exact He]. destruct HF as (q1 & q2 & Hs & Ks & [C D] & E).
  rewrite (E I) in C, D.
  pose proof (backed_transfer t1 t2 e q1 (ep2 e) S Hs (anchored_chain_ok _ _ _ C) D) as P.
  rewrite repath_id in P. exact P.
Qed.
End RunRep.

(* ---- [norep] implies both guards ---- *)
Lemma alist_eqb_refl xs : alist_eqb xs xs = true.
Proof. induction xs as [|x xs IH]; cbn; [reflexivity|]. rewrite atom_eqb_refl. exact IH. Qed.

Lemma value_eqb_refl : forall a, value_eqb a a = true.
Proof.
  induction a as [x|xs IH|xs IH|kvs IH|xs|xs] using value_ind'.
  - cbn. apply atom_eqb_refl.
  - rewrite value_eqb_list. induction IH as [|x xs Hx _ IHl]; cbn; [reflexivity|]. rewrite Hx. exact IHl.
  - rewrite value_eqb_tuple. induction IH as [|x xs Hx _ IHl]; cbn; [reflexivity|]. rewrite Hx. exact IHl.
  - rewrite value_eqb_dict. induction IH as [|[k v] xs Hx _ IHl]; cbn; [reflexivity|].
    cbn in Hx. rewrite atom_eqb_refl, Hx. exact IHl.
  - rewrite value_eqb_set. apply alist_eqb_refl.
  - rewrite value_eqb_frozen. apply alist_eqb_refl.
Qed.

Lemma NoDup_map_inj {A B} (f : A -> B) l x y :
  NoDup (map f l) -> In x l -> In y l -> f x = f y -> x = y.
Proof.
  induction l as [|a l IH]; cbn; intros N Hx Hy E; [destruct Hx|].
  inversion N as [|? ? Na Nl]; subst.
  destruct Hx as [<-|Hx], Hy as [<-|Hy]; try reflexivity.
  - exfalso. apply Na. rewrite E. apply in_map. exact Hy.
  - exfalso. apply Na. rewrite <- E. apply in_map. exact Hx.
  - apply IH; assumption.
Qed.

Section Guards.
Variable H : pystr -> pystr.
Variable c : cfg.

Lemma norep_sibinj : forall t, norep H c true t = true -> sibinj H c t = true.
Proof.
  induction t as [x|xs IH|xs IH|kvs IH|xs|xs] using value_ind'; intros N; try reflexivity.
  - cbn in N. apply andb_true_iff in N as [N1 N2]. cbn. apply andb_true_iff. split.
    + apply nodup_h_NoDup in N1. apply forallb_forall. intros x Hx. apply forallb_forall. intros y Hy.
      destruct (pystr_eqb (hv H c true x) (hv H c true y)) eqn:E; [|reflexivity]. cbn.
      apply pystr_eqb_eq in E. rewrite (NoDup_map_inj _ _ _ _ N1 Hx Hy E). apply value_eqb_refl.
    + apply forallb_forall. intros x Hx. rewrite Forall_forall in IH. apply IH; [exact Hx|].
      rewrite forallb_forall in N2. apply N2. exact Hx.
  - cbn in N. apply andb_true_iff in N as [N1 N2]. cbn. apply andb_true_iff. split.
    + apply nodup_h_NoDup in N1. apply forallb_forall. intros x Hx. apply forallb_forall. intros y Hy.
      destruct (pystr_eqb (hv H c true x) (hv H c true y)) eqn:E; [|reflexivity]. cbn.
      apply pystr_eqb_eq in E. rewrite (NoDup_map_inj _ _ _ _ N1 Hx Hy E). apply value_eqb_refl.
    + apply forallb_forall. intros x Hx. rewrite Forall_forall in IH. apply IH; [exact Hx|].
      rewrite forallb_forall in N2. apply N2. exact Hx.
  - cbn in N. cbn. apply forallb_forall. intros kv Hkv. rewrite Forall_forall in IH. apply (IH kv Hkv).
    rewrite forallb_forall in N. apply N. exact Hkv.
Qed.

Lemma norep_aligned_seq xs ys :
  Forall (fun x => forall t2, norep H c true x = true -> norep H c true t2 = true -> aligned H c x t2 = true) xs ->
  nodup_h (map (hv H c true) xs) && forallb (norep H c true) xs = true ->
  nodup_h (map (hv H c true) ys) && forallb (norep H c true) ys = true ->
  nodup_h (map (hv H c true) ys) &&
  forallb (fun x => negb (mem_h (hv H c true x) (map (hv H c true) ys)) ||
                    Nat.leb (length (indexes_of (hv H c true x) (map (hv H c true) xs) 0)) 1) xs &&
  forallb (fun x => forallb (aligned H c x) ys) xs = true.
Proof.
  intros IH N1 N2. apply andb_true_iff in N1 as [A1 B1], N2 as [A2 B2].
  rewrite A2. cbn [andb]. apply andb_true_iff. split.
  - apply forallb_forall. intros x Hx. apply orb_true_iff. right. apply Nat.leb_le.
    rewrite (indexes_single _ _ (nodup_h_NoDup _ A1) (in_map _ _ _ Hx)). lia.
  - apply forallb_forall. intros x Hx. apply forallb_forall. intros y Hy.
    rewrite Forall_forall in IH. apply (IH x Hx).
    + rewrite forallb_forall in B1. apply B1. exact Hx.
    + rewrite forallb_forall in B2. apply B2. exact Hy.
Qed.

Lemma norep_aligned : forall t1 t2,
  norep H c true t1 = true -> norep H c true t2 = true -> aligned H c t1 t2 = true.
Proof.
  induction t1 as [x|xs IH|xs IH|kvs IH|xs|xs] using value_ind'; intros t2 N1 N2; destruct t2; try reflexivity.
  - cbn [aligned]. apply norep_aligned_seq; assumption.
  - cbn [aligned]. apply norep_aligned_seq; assumption.
  - cbn [aligned]. cbn in N1, N2. apply forallb_forall. intros kv1 H1. apply forallb_forall. intros kv2 H2.
    rewrite Forall_forall in IH. rewrite (IH kv1 H1 (snd kv2)).
    + destruct (py_eq _ _); reflexivity.
    + rewrite forallb_forall in N1. apply N1. exact H1.
    + rewrite forallb_forall in N2. apply N2. exact H2.
Qed.
End Guards.

(* the guards are satisfiable by inputs WITH repeated items:
   [1, 1, 2, [3, 3]] -> [2, 5, [4, 6]] (the repeated 1 is removed, the repeated 3 below too) *)
Definition rep_ex1 : value :=
  VList [VAtom (AInt 1); VAtom (AInt 1); VAtom (AInt 2); VList [VAtom (AInt 3); VAtom (AInt 3)]].
Definition rep_ex2 : value :=
  VList [VAtom (AInt 2); VAtom (AInt 5); VList [VAtom (AInt 4); VAtom (AInt 6)]].
Example aligned_example :
  aligned hexhash (mkCfg false 33 100 true) rep_ex1 rep_ex2 = true /\
  sibinj hexhash (mkCfg false 33 100 true) rep_ex1 = true /\
  norep hexhash (mkCfg false 33 100 true) true rep_ex1 = false.
Proof. vm_compute. repeat split. Qed.

(* without [sibinj] the t1 side fails: a hasher that sends everything to one
   hash makes 1 and 2 "the same item"; [1, 2] -> [] reports both indexes with
   the first item *)
Lemma rep_t1_refuted :
  exists e, In e (fst (run_diff_io (fun _ => []) (fun _ _ => []) (fun _ => false) (fun _ => false)
                         (mkCfg false 33 100 true) true (fun _ => [])
                         (VList [VAtom (AInt 1); VAtom (AInt 2)]) (VList []))) /\
            ekind e = KIterRem /\ et1 e = Some (VAtom (AInt 1)) /\
            resolve (VList [VAtom (AInt 1); VAtom (AInt 2)]) (ep1 e) = Some (VAtom (AInt 2)).
Proof.
  exists (mkEntry KIterRem [PIdx 1] [PIdx 1] (Some (VAtom (AInt 1))) None None).
  split; [vm_compute; tauto|]. repeat split.
Qed.

(* ---- hence the text view of every report_repetition run is the documented
   projection of its tree, no guard ---- *)
Lemma shape_ok_repath e q1 q2 : shape_ok (repath e q1 q2) -> shape_ok e.
Proof. unfold shape_ok. destruct e; cbn. trivial. Qed.

Theorem run_io_rep_shape H udiff skip excl c pairs t1 t2 :
  wf t1 = true -> wf t2 = true ->
  Forall shape_ok (fst (run_diff_io H udiff skip excl c true pairs t1 t2)).
Proof.
  intros W1 W2. apply Forall_forall. intros e He.
  destruct (run_io_rep_backed H udiff skip excl c pairs t1 t2 W1 W2 e He) as (q1 & q2 & _ & _ & _ & Lf).
  destruct (rkind_eqb (ekind e) KRepetition) eqn:E.
  - unfold shape_ok. destruct (ekind e); try discriminate E. exact I.
  - apply (shape_ok_repath e q1 q2). eapply leaf_shape_ok; [|exact Lf].
    cbn [repath ekind]. intros Hk. rewrite Hk in E. discriminate E.
Qed.

Theorem run_io_rep_text_projection H udiff skip excl c pairs verbose t1 t2 :
  wf t1 = true -> wf t2 = true ->
  Forall2 (describes verbose)
          (filter (visible verbose) (fst (run_diff_io H udiff skip excl c true pairs t1 t2)))
          (text_view verbose (fst (run_diff_io H udiff skip excl c true pairs t1 t2))).
Proof. intros. apply text_is_projection. apply run_io_rep_shape; assumption. Qed.

(* ---- the repetition_change category of the text view of a run: one record per
   level, in order, under the level's path, value = the level's t1, and the
   indexes are the positions of the level's hash in the two lists ---- *)
Theorem run_io_rep_text_payload H udiff skip excl c pairs t1 t2 :
  wf t1 = true -> wf t2 = true ->
  let r := run_diff_io H udiff skip excl c true pairs t1 t2 in
  Forall2 (fun e t => trpath t = render (ep1 e) /\ trval t = opt_val (et1 e) /\
                      exists rc, rep_rec_ok H c t1 t2 e rc /\ trold t = rold rc /\ trnew t = rnew rc)
          (filter is_rep (fst r))
          (rep_view (fst r) (map (fun x => (rpath x, rold x, rnew x)) (snd r))).
Proof.
  intros W1 W2. cbv zeta. pose proof (run_io_rep_payload H udiff skip excl c pairs t1 t2 W1 W2) as F.
  unfold rep_view. set (l := filter is_rep (fst (run_diff_io H udiff skip excl c true pairs t1 t2))) in *.
  set (rs := snd (run_diff_io H udiff skip excl c true pairs t1 t2)) in *. clearbody l rs.
  induction F as [|e rc l rs Hr _ IH]; cbn; constructor; [|exact IH].
  cbn. split; [reflexivity|]. split; [reflexivity|]. exists rc. split; [exact Hr|split; reflexivity].
Qed.

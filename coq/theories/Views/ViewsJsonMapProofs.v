(** C10 - to_json(default_mapping=...): facts about Views/ViewsJsonMap.v.

      walk_builtin / json_with_builtin   without default_mapping (None or {}) the
          table-driven model IS the model of ViewsModel.v ([to_jsonable],
          [json_full]): every theorem about to_json() transfers;
      json_g_same_keys   for EVERY convertor table: when the call succeeds, the
          document's categories are those of the text view and the member names
          of every dict category are the paths; a list category is whatever the
          SetOrdered row makes of the path list;
      run_calls_pure     to_json / json_dumps is a function of its own arguments:
          in every history of calls every result is the result of the same call
          on a fresh interpreter, and the module-level table never changes;
      nocopy_history_refuted   the statement is false of a json_convertor_default
          that updates the module-level table in place (what the seeded change
          C10-6 did through shared mutable state). *)
From Coq Require Import List ZArith NArith Bool Arith Lia String.
Import ListNotations.
From DD Require Import Base.PyStr Base.Value Base.ValueFacts Path.PathModel Diff.Tree Diff.DiffModel Diff.TextView
  Views.ViewsModel Views.ViewsChains Views.ViewsProofs Views.ViewsJsonMap.

(* ---- unfolding [walk] ---- *)
Section Walk.
Variable iso : nat -> hobj -> bool.
Variable t : table.

Lemma walk_list fuel xs : walk iso t fuel (VList xs) = option_map JList (all_some (map (walk iso t fuel) xs)).
Proof. destruct fuel; reflexivity. Qed.
Lemma walk_tuple fuel xs : walk iso t fuel (VTuple xs) = option_map JList (all_some (map (walk iso t fuel) xs)).
Proof. destruct fuel; reflexivity. Qed.
Lemma walk_dict fuel kvs :
  walk iso t fuel (VDict kvs) =
  option_map JObj (all_some (map (fun kv =>
    match json_key (fst kv), walk iso t fuel (snd kv) with
    | Some k, Some j => Some (k, j)
    | _, _ => None
    end) kvs)).
Proof. destruct fuel; reflexivity. Qed.
Lemma walk_atom fuel a : (forall s, a <> ABytes s) -> walk iso t fuel (VAtom a) = atom_jsonable a.
Proof. intros N. destruct fuel; destruct a; try reflexivity; exfalso; eapply N; reflexivity. Qed.
Lemma walk_bytes fuel s : walk iso t fuel (VAtom (ABytes s)) = hook iso t fuel (HBytes s).
Proof. destruct fuel; reflexivity. Qed.
Lemma walk_set fuel xs : walk iso t fuel (VSet xs) = hook iso t fuel (HSet xs).
Proof. destruct fuel; reflexivity. Qed.
Lemma walk_frozen fuel xs : walk iso t fuel (VFrozen xs) = hook iso t fuel (HFrozen xs).
Proof. destruct fuel; reflexivity. Qed.
End Walk.

(* ---- the built-in table ---- *)
Section Builtin.
Variable iso : nat -> hobj -> bool.

Lemma walk_str fuel s : walk iso builtin fuel (VAtom (AStr s)) = Some (JStr s).
Proof. destruct fuel; reflexivity. Qed.

Lemma hook_bytes n s : hook iso builtin (S n) (HBytes s) = option_map JStr (utf8_decode s).
Proof. cbn. destruct (utf8_decode s) as [u|]; cbn; [apply walk_str|reflexivity]. Qed.
Lemma hook_type n ty : hook iso builtin (S n) (HType ty) = Some (JStr (ty_name ty)).
Proof. cbn. apply walk_str. Qed.
Lemma hook_frozen n xs : hook iso builtin n (HFrozen xs) = None.
Proof. destruct n; reflexivity. Qed.

Lemma walk_atoms n xs :
  all_some (map (walk iso builtin (S n)) (map VAtom xs)) = all_some (map atom_jsonable xs).
Proof.
  induction xs as [|a xs IH]; cbn [map all_some]; [reflexivity|].
  assert (E : walk iso builtin (S n) (VAtom a) = atom_jsonable a).
  { destruct a; try (apply walk_atom; intros s' D; discriminate D).
    rewrite walk_bytes, hook_bytes. reflexivity. }
  rewrite E, IH. reflexivity.
Qed.
Lemma hook_set n xs : hook iso builtin (S (S n)) (HSet xs) = option_map JList (all_some (map atom_jsonable xs)).
Proof. cbn [hook lookup find builtin isinst fst snd option_map]. rewrite walk_list, walk_atoms. reflexivity. Qed.

Lemma walk_strs n l : walk iso builtin n (strs l) = Some (JList (map JStr l)).
Proof.
  unfold strs. rewrite walk_list. induction l as [|s l IH]; cbn [map all_some option_map]; [reflexivity|].
  rewrite walk_str. cbn. destruct (all_some _) as [r|] eqn:E; cbn in *; inversion IH; subst. reflexivity.
Qed.
Lemma hook_ordered n l : hook iso builtin (S n) (HOrdered l) = Some (JList (map JStr l)).
Proof. cbn. apply walk_strs. Qed.

(* two nested hook calls suffice: set -> list, then bytes -> str *)
Theorem walk_builtin n : forall v, walk iso builtin (S (S n)) v = to_jsonable v.
Proof.
  induction v as [a|xs IH|xs IH|kvs IH|xs|xs] using value_ind'.
  - destruct a; try (apply walk_atom; intros s' D; discriminate D). rewrite walk_bytes, hook_bytes. reflexivity.
  - rewrite walk_list. cbn [to_jsonable]. f_equal. f_equal. apply map_ext_in. intros x Hx.
    rewrite Forall_forall in IH. apply IH. exact Hx.
  - rewrite walk_tuple. cbn [to_jsonable]. f_equal. f_equal. apply map_ext_in. intros x Hx.
    rewrite Forall_forall in IH. apply IH. exact Hx.
  - rewrite walk_dict. cbn [to_jsonable]. f_equal. f_equal. apply map_ext_in. intros kv Hkv.
    rewrite Forall_forall in IH. rewrite (IH kv Hkv). reflexivity.
  - rewrite walk_set, hook_set. reflexivity.
  - rewrite walk_frozen, hook_frozen. reflexivity.
Qed.
End Builtin.

(* ---- the generic document over pointwise equal encoders ---- *)
Lemma entry_json_g_ext W W' WT WT' t :
  (forall v, W v = W' v) -> (forall ty, WT ty = WT' ty) -> entry_json_g W WT t = entry_json_g W' WT' t.
Proof.
  intros HW HT. destruct t as [p a b np vals|p a b np d|p v|p v|p v|p v|p np v|s|s]; cbn [entry_json_g];
    rewrite ?HW, ?HT; try reflexivity.
  destruct vals as [[x y]|]; rewrite ?HW; reflexivity.
Qed.

Lemma json_full_g_ext W W' WT WT' WS WS' verbose ts reps :
  (forall v, W v = W' v) -> (forall ty, WT ty = WT' ty) -> (forall l, WS l = WS' l) ->
  json_full_g W WT WS verbose ts reps = json_full_g W' WT' WS' verbose ts reps.
Proof.
  intros HW HT HS. unfold json_full_g.
  assert (E1 : cat_list_g W WT WS verbose ts = cat_list_g W' WT' WS' verbose ts).
  { unfold cat_list_g. apply flat_map_ext. intros c. destruct (in_cat c ts) as [|t0 l]; [reflexivity|].
    unfold cat_json_g. destruct (list_cat verbose c); [rewrite HS; reflexivity|].
    assert (E : map (fun t => (tpath t, entry_json_g W WT t)) (t0 :: l) = map (fun t => (tpath t, entry_json_g W' WT' t)) (t0 :: l)).
    { apply map_ext. intros t. rewrite (entry_json_g_ext W W' WT WT' t HW HT). reflexivity. }
    rewrite E. reflexivity. }
  assert (E2 : rep_cat_g W reps = rep_cat_g W' reps).
  { unfold rep_cat_g. destruct reps as [|r0 reps]; [reflexivity|].
    assert (E : map (fun t => (trpath t, rep_entry_json_g W t)) (r0 :: reps) = map (fun t => (trpath t, rep_entry_json_g W' t)) (r0 :: reps)).
    { apply map_ext. intros r. unfold rep_entry_json_g. rewrite HW. reflexivity. }
    rewrite E. reflexivity. }
  rewrite E1, E2. reflexivity.
Qed.

Lemma entry_json_g_std t :
  entry_json_g to_jsonable (fun ty => Some (JStr (ty_name ty))) t = entry_json t.
Proof. destruct t; reflexivity. Qed.

Lemma json_full_g_std verbose ts reps :
  json_full_g to_jsonable (fun ty => Some (JStr (ty_name ty))) (fun l => Some (JList (map JStr l))) verbose ts reps
  = json_full verbose ts reps.
Proof.
  unfold json_full_g, json_full.
  assert (E1 : cat_list_g to_jsonable (fun ty => Some (JStr (ty_name ty))) (fun l => Some (JList (map JStr l))) verbose ts
               = cat_list verbose ts).
  { unfold cat_list_g, cat_list. apply flat_map_ext. intros c. destruct (in_cat c ts) as [|t0 l]; [reflexivity|].
    unfold cat_json_g, cat_json. destruct (list_cat verbose c); [reflexivity|].
    assert (E : map (fun t => (tpath t, entry_json_g to_jsonable (fun ty => Some (JStr (ty_name ty))) t)) (t0 :: l)
                = map (fun t => (tpath t, entry_json t)) (t0 :: l)).
    { apply map_ext. intros t. rewrite entry_json_g_std. reflexivity. }
    rewrite E. reflexivity. }
  rewrite E1. reflexivity.
Qed.

Section Compat.
Variable iso : nat -> hobj -> bool.

(* without default_mapping the table-driven document is the one of ViewsModel.v *)
Theorem json_with_builtin n verbose ts reps :
  json_with iso builtin (S (S n)) verbose ts reps = json_full verbose ts reps.
Proof.
  unfold json_with. rewrite <- json_full_g_std. apply json_full_g_ext.
  - apply walk_builtin.
  - intros ty. apply hook_type.
  - intros l. apply hook_ordered.
Qed.

(* default_mapping=None and default_mapping={} *)
Theorem to_json_m_default n (dm : option table) rep verbose tree rs :
  dm = None \/ dm = Some [] ->
  to_json_m iso builtin dm (S (S n)) rep verbose tree rs = to_json_full rep verbose tree rs.
Proof.
  intros [-> | ->]; unfold to_json_m, to_json_full; cbn [effective]; apply json_with_builtin.
Qed.
End Compat.

(* ---- categories and paths, for every table ---- *)
Section Keys.
Variable W : value -> option jv.
Variable WT : ty -> option jv.
Variable WS : list pystr -> option jv.

Lemma cat_list_g_names verbose ts name :
  In name (map fst (cat_list_g W WT WS verbose ts)) <-> exists t, In t ts /\ cat_name (tcat t) = name.
Proof.
  unfold cat_list_g. rewrite in_map_iff. split.
  - intros ([n o] & Hn & Hin). cbn in Hn. subst n. apply in_flat_map in Hin as (c & _ & Hc).
    destruct (in_cat c ts) as [|t l] eqn:I; [destruct Hc|]. destruct Hc as [Hc|[]]. inversion Hc; subst.
    assert (Ht : In t (in_cat c ts)) by (rewrite I; left; reflexivity).
    apply in_cat_In in Ht as [Ht Hc']. exists t. split; [exact Ht|]. rewrite Hc'. reflexivity.
  - intros (t & Ht & <-). exists (cat_name (tcat t), cat_json_g W WT WS verbose (tcat t) (in_cat (tcat t) ts)).
    split; [reflexivity|]. apply in_flat_map. exists (tcat t). split; [apply all_cats_complete|].
    destruct (in_cat (tcat t) ts) as [|t0 l] eqn:I.
    + exfalso. assert (Hx : In t (in_cat (tcat t) ts)) by (apply in_cat_In; split; [exact Ht|reflexivity]). rewrite I in Hx. exact Hx.
    + left. reflexivity.
Qed.

Lemma cat_list_g_payload verbose ts c o :
  In (cat_name c, o) (cat_list_g W WT WS verbose ts) -> o = cat_json_g W WT WS verbose c (in_cat c ts).
Proof.
  unfold cat_list_g. intros Hin. apply in_flat_map in Hin as (c' & _ & Hc).
  destruct (in_cat c' ts) as [|t l] eqn:I; [destruct Hc|]. destruct Hc as [Hc|[]]. inversion Hc as [[N P]].
  apply cat_name_inj in N. subst c'. rewrite I. reflexivity.
Qed.

Theorem json_g_same_keys verbose ts reps j :
  json_full_g W WT WS verbose ts reps = Some j ->
  exists cats, j = JObj cats /\
    (forall name, In name (map fst cats) <->
       (exists t, In t ts /\ cat_name (tcat t) = name) \/ (name = rep_name /\ reps <> [])) /\
    (forall c payload, In (cat_name c, payload) cats -> list_cat verbose c = false ->
       forall p, In p (jmembers payload) <-> exists t, In t ts /\ tcat t = c /\ tpath t = p) /\
    (forall c payload, In (cat_name c, payload) cats -> list_cat verbose c = true ->
       WS (set_first [] (map tpath (in_cat c ts))) = Some payload) /\
    (forall payload, In (rep_name, payload) cats ->
       forall p, In p (jmembers payload) <-> exists t, In t reps /\ trpath t = p).
Proof.
  unfold json_full_g. intros Hj.
  destruct (all_some_kv _) as [cats|] eqn:E; [|discriminate]. inversion Hj; subst. clear Hj.
  exists cats. split; [reflexivity|].
  apply all_some_kv_spec in E as [E1 E2].
  assert (Hcat : forall c payload, In (cat_name c, payload) cats ->
            cat_json_g W WT WS verbose c (in_cat c ts) = Some payload).
  { intros c payload Hin. apply E2 in Hin. apply in_app_or in Hin as [Hin|Hin].
    - apply cat_list_g_payload in Hin. symmetry. exact Hin.
    - exfalso. unfold rep_cat_g in Hin. destruct reps; [destruct Hin|]. destruct Hin as [Hin|[]].
      apply (f_equal fst) in Hin. cbn [fst] in Hin. symmetry in Hin. exact (rep_name_fresh c Hin). }
  split; [|split; [|split]].
  - intros name. rewrite E1, map_app, in_app_iff, cat_list_g_names. split; intros [Hl|Hr]; try (left; exact Hl); right.
    + unfold rep_cat_g in Hr. destruct reps; [destruct Hr|]. destruct Hr as [<-|[]]. split; [reflexivity|discriminate].
    + destruct Hr as [-> Hne]. unfold rep_cat_g. destruct reps; [congruence|]. left. reflexivity.
  - intros c payload Hin LC p. specialize (Hcat c payload Hin). unfold cat_json_g in Hcat. rewrite LC in Hcat.
    destruct (all_some_kv _) as [kvs|] eqn:A; [|discriminate]. inversion Hcat; subst payload.
    apply all_some_kv_spec in A as [A _]. cbn [jmembers]. rewrite A, dict_last_keys, map_map. cbn [fst].
    rewrite in_map_iff. split.
    + intros (t' & <- & Ht'). apply in_cat_In in Ht' as [Ht' Hc']. exists t'. repeat split; assumption.
    + intros (t' & Ht' & Hc' & <-). exists t'. split; [reflexivity|]. apply in_cat_In. split; assumption.
  - intros c payload Hin LC. specialize (Hcat c payload Hin). unfold cat_json_g in Hcat. rewrite LC in Hcat. exact Hcat.
  - intros payload Hin p. apply E2 in Hin. apply in_app_or in Hin as [Hin|Hin].
    + exfalso. assert (Hn : In rep_name (map fst (cat_list_g W WT WS verbose ts)))
        by (apply in_map_iff; eexists; split; [|exact Hin]; reflexivity).
      apply cat_list_g_names in Hn as (t & _ & Hn). exact (rep_name_fresh _ Hn).
    + unfold rep_cat_g in Hin. destruct reps as [|t0 reps0] eqn:R; [destruct Hin|]. destruct Hin as [Hin|[]].
      apply (f_equal snd) in Hin. cbn [snd] in Hin.
      destruct (all_some_kv (dict_last _)) as [kvs|] eqn:A; [|discriminate]. cbn in Hin. inversion Hin; subst payload.
      apply all_some_kv_spec in A as [A _]. cbn [jmembers]. rewrite A, dict_last_keys, map_map. cbn [fst].
      rewrite in_map_iff. split.
      * intros (t & <- & Ht). exists t. split; [exact Ht|reflexivity].
      * intros (t & Ht & <-). exists t. split; [reflexivity|exact Ht].
Qed.
End Keys.

(* ---- histories ---- *)
Section History.
Variable iso : nat -> hobj -> bool.

(* the faithful json_convertor_default never touches the module-level table *)
Lemma run_call_state fuel G cl : snd (run_call iso convertor_default fuel G cl) = G.
Proof. destruct cl; reflexivity. Qed.

Lemma run_calls_state fuel G cs : snd (run_calls iso convertor_default fuel G cs) = G.
Proof.
  revert G; induction cs as [|cl cs IH]; intros G; cbn [run_calls]; [reflexivity|].
  pose proof (run_call_state fuel G cl) as E. destruct (run_call iso convertor_default fuel G cl) as [o G'].
  cbn [snd] in E. subst G'. specialize (IH G). destruct (run_calls iso convertor_default fuel G cs) as [os G''].
  exact IH.
Qed.

(* every result in every history is the result of the same call on a fresh interpreter *)
Theorem run_calls_pure fuel cs :
  fst (run_calls iso convertor_default fuel builtin cs) = map (pure_call iso fuel) cs.
Proof.
  induction cs as [|cl cs IH]; cbn [run_calls map]; [reflexivity|].
  pose proof (run_call_state fuel builtin cl) as E. unfold pure_call at 1.
  destruct (run_call iso convertor_default fuel builtin cl) as [o G']. cbn [snd fst] in *. subst G'.
  destruct (run_calls iso convertor_default fuel builtin cs) as [os G'']. cbn [fst] in *. rewrite IH. reflexivity.
Qed.

(* hence: two histories that end with the same call end with the same result *)
Corollary history_independent fuel cs1 cs2 cl :
  last (fst (run_calls iso convertor_default fuel builtin (cs1 ++ [cl]))) None =
  last (fst (run_calls iso convertor_default fuel builtin (cs2 ++ [cl]))) None.
Proof. rewrite !run_calls_pure, !map_app. cbn [map]. rewrite !last_last. reflexivity. Qed.
End History.

(* json_convertor_default updating the module-level table in place *)
Definition convertor_default_nocopy (G : table) (dm : option table) : table * table :=
  (effective G dm, effective G dm).

Definition w_hex_table : table :=
  [(HKBytes, fun h => match h with HBytes s => Some (VAtom (AStr (flat_map hex2 s))) | _ => None end)].
Definition w_bytes : value := VList [VAtom (ABytes [255%N])].

(* json_dumps([b'\xff']) raises on a fresh interpreter, but not after somebody
   else's json_dumps(..., default_mapping={bytes: hex}) when the table is shared *)
Theorem nocopy_history_refuted :
  let iso := fun (_ : nat) (_ : hobj) => false in
  fst (run_calls iso convertor_default_nocopy 3 builtin [CDumps None w_bytes]) = [None] /\
  exists j, fst (run_calls iso convertor_default_nocopy 3 builtin
                   [CDumps (Some w_hex_table) (VAtom ANone); CDumps None w_bytes]) = [Some JNull; Some j].
Proof. cbv zeta. split; [vm_compute; reflexivity|]. eexists. vm_compute. reflexivity. Qed.

(** sx renderings for the round-3 correspondence families of C10 (mirrored by
    harness/props/c10.py): the delta view, to_json(default_mapping=...), real
    DiffLevel lines.  No theorem depends on this file. *)
From Coq Require Import List ZArith NArith Bool Arith String.
Import ListNotations.
From DD Require Import Base.Sx Base.PyStr Base.Value Path.PathModel Diff.Tree Diff.DiffModel Diff.TextView
  Diff.DiffShow Hash.HashModel DiffIO.DiffIOModel DiffIO.DiffIOShow
  Delta.DeltaModel Delta.DeltaShow Delta.DeltaIO Delta.DeltaIOShow
  Views.ViewsModel Views.ViewsShow Views.ViewsDelta Views.ViewsJsonMap Views.ViewsLevel.
Local Open Scope string_scope.

(* ---- the delta view ---- *)
Definition sx_view3 (r : view3_result) : sx :=
  match r with
  | R3Text ts => SL [SA "text"; sx_text ts]
  | R3Tree es => SL [SA "tree"; sx_sorted_list sx_entry es]
  | R3Delta d => SL [SA "delta"; sx_delta d]
  | R3DeltaIO d => SL [SA "delta_io"; sx_delta_io d]
  end.

(* ordered run: the delta view of the stored tree, through to_dict(view_override='_delta')
   of a tree-view object *)
Definition sx_c10_delta (cv : list (ty * value * option value)) (ops : list (path * list opcode))
    (t1 t2 : value) (r : list entry * list path) : sx :=
  sx_view3 (to_dict3 (tbl_conv cv) (tbl_ops ops) (mkCtx t1 t2 false false (snd r) []) V3Tree (Some V3Delta) 1 (fst r)).
(* ignore_order run (report_repetition = rep) *)
Definition sx_c10_delta_io (cv : list (ty * value * option value)) (rep : bool)
    (t1 t2 : value) (r : list entry * list repinfo) : sx :=
  sx_view3 (to_dict3 (tbl_conv cv) (fun _ _ _ => []) (mkCtx t1 t2 true rep [] (snd r)) V3Text (Some V3Delta) 1 (fst r)).

(* ---- to_json(default_mapping=...) ---- *)
Definition sx_hobj (h : hobj) : sx :=
  match h with
  | HSet xs => SL [SA "set"; SL (sx_sort (map sx_atom xs))]
  | HFrozen xs => SL [SA "frozenset"; SL (sx_sort (map sx_atom xs))]
  | HBytes s => SL [SA "bytes"; sx_str s]
  | HType t => SL [SA "type"; sx_ty t]
  (* the insertion order of a category is not modelled: a recorded call is found by the SET of its paths *)
  | HOrdered l => SL [SA "SetOrdered"; SL (sx_sort (map sx_str l))]
  end.
(* a user convertor as the table of the calls it received *)
Definition tbl_convf (rows : list (hobj * option value)) : convf :=
  fun h => match find (fun r => sx_eqb (sx_hobj (fst r)) (sx_hobj h)) rows with
           | Some r => snd r
           | None => None
           end.
(* isinstance(obj, n-th other class): the class as the list of the four classes
   of the universe (by name) that are its instances *)
Definition hobj_cls (h : hobj) : nat :=
  match h with HSet _ => 0 | HFrozen _ => 1 | HBytes _ => 2 | HType _ => 3 | HOrdered _ => 4 end%nat.
Definition tbl_iso (t : list (nat * list nat)) (n : nat) (h : hobj) : bool :=
  match find (fun r => Nat.eqb (fst r) n) t with
  | Some r => existsb (Nat.eqb (hobj_cls h)) (snd r)
  | None => false
  end.

Definition sx_c10_jsonmap (iso : list (nat * list nat)) (dm : option table) (rep : bool) (verbose : nat)
    (es : list entry) (rs : list repinfo3) : sx :=
  sx_json (to_json_m (tbl_iso iso) builtin dm 8 rep verbose es rs).
Definition sx_c10_dumps (iso : list (nat * list nat)) (dm : option table) (v : value) : sx :=
  match walk (tbl_iso iso) (effective builtin dm) 8 v with None => SA "raise" | Some j => sx_jv j end.

(* ---- DiffLevel lines ---- *)
Definition sx_okey (o : option pkey) : sx := match o with Some k => sx_pkey k | None => SA "None" end.
Definition sx_level_obs (l : level) : sx :=
  SL [SL (map sx_okey (path_list false l)); SL (map sx_okey (path_list true l));
      sx_opt sx_str (path_str false l); sx_opt sx_str (path_str true l)].
(* every DiffLevel object of the line, from the root: following [down] *)
Fixpoint walk_down (fuel : nat) (l : level) : list level :=
  match fuel with
  | O => []
  | S f => l :: match down l with Some d => walk_down f d | None => [] end
  end.
Definition sx_line (l : level) : sx :=
  let root := all_up l in
  let leaf := all_down l in
  SL [SL (map sx_level_obs (walk_down (S (List.length (line l))) root));
      sx_nat (List.length (ups l));                         (* depth of self *)
      sx_bool (match up root with None => true | Some _ => false end);
      sx_bool (match down leaf with None => true | Some _ => false end);
      sx_nat (List.length (ups leaf))].
